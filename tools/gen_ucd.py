#!/usr/bin/env python3
"""Translate the Unicode class / case-mapping tables that /repo's `char::is_alphabetic`, `str::to_lowercase`,
regex `\\p{P}` and the word regex of `text::split_words` rest on into Gallina.

    tools/gen_ucd.py            regenerate coq/theories/UCD_Table.v, corpus/C18/ucd_boundaries.case and
                                corpus/C20/ucd_boundaries.case
    tools/gen_ucd.py --check    exit 1 if a committed file differs from what the sources give,
                                exit 0 (with a note) if a source is absent

Two sources (two different Unicode versions at the time of writing — the model keeps them apart):

  * the Rust standard library: `library/core/src/unicode/unicode_data.rs` of a toolchain that ships the
    `rust-src` component.  `$(rustc --print sysroot)` is looked at first; when the active toolchain has no
    `rust-src` (the case on the build machine: stable 1.95.0 without sources), every installed rustup toolchain
    is searched and the first one (sorted by name) that has the file is used; the header of UCD_Table.v records
    which.  That the tables are those of the std the harness is LINKED against is established by the exhaustive
    comparison in the C18 / C20 checks, not by this script.
      - `alphabetic`, `case_ignorable`, `lt`: skip-search tables (SHORT_OFFSET_RUNS + OFFSETS), DECODED HERE
        into range lists (`decode_skip`, validated against a literal transcription of `skip_search` on every
        range end, its neighbours and 20 000 further code points, and against the range / code point counts in
        the header comment of unicode_data.rs);
      - `lowercase`, `uppercase`: bitset tables, DECODED HERE by a literal transcription of `bitset_search`
        evaluated on all 0x110000 code points;
      - `conversions::LOWERCASE_LUT`: translated structurally (ranges with parity and 16-bit delta per plane,
        the multi-character table); `conversions::lookup` is modelled in Coq (UCD_Model.to_lower).
  * the locked `regex-syntax` crate (version from $VERIF_REPO/Cargo.lock, default /repo):
    `src/unicode_tables/{general_category,property_bool,perl_word}.rs`: PUNCTUATION, MARK, DECIMAL_NUMBER,
    CONNECTOR_PUNCTUATION, ALPHABETIC, JOIN_CONTROL, PERL_WORD as (char, char) range lists; the copy of PERL_WORD
    in the locked `regex-automata` (the one the matching engines read for `\\b`) must be identical.

The output is deterministic; it records versions and sha256 of the sources.  Stdlib only.
"""
import glob
import hashlib
import os
import random
import re
import subprocess
import sys

ROOT = os.path.dirname(os.path.dirname(os.path.abspath(__file__)))
OUT_V = os.path.join(ROOT, "coq", "theories", "UCD_Table.v")
OUT_C18 = os.path.join(ROOT, "corpus", "C18", "ucd_boundaries.case")
OUT_C20 = os.path.join(ROOT, "corpus", "C20", "ucd_boundaries.case")
REL_STD = os.path.join("lib", "rustlib", "src", "rust", "library", "core", "src", "unicode", "unicode_data.rs")


def die(msg):
    sys.exit("gen_ucd: " + msg)


# ------------------------------------------------------------------ locating the sources
def find_std():
    """(path, toolchain name) of unicode_data.rs, or (None, None)"""
    cands = []
    try:
        sysroot = subprocess.run(["rustc", "--print", "sysroot"], capture_output=True, text=True, timeout=60).stdout.strip()
        if sysroot:
            cands.append(sysroot)
    except Exception:
        pass
    home = os.environ.get("RUSTUP_HOME", os.path.expanduser("~/.rustup"))
    cands += sorted(glob.glob(os.path.join(home, "toolchains", "*")))
    for c in cands:
        p = os.path.join(c, REL_STD)
        if os.path.exists(p):
            return p, os.path.basename(c.rstrip("/"))
    return None, None


def locked_version(crate):
    """version of `crate` in $VERIF_REPO/Cargo.lock (default /repo; a scratch worktree has no lock file of its
    own: /repo's is used then); the harness' own lock file — the one that decides what the harness binary is
    linked against — must name the same version"""
    def ver(lockfile):
        m = re.search(r'\[\[package\]\]\s*name = "%s"\s*version = "([^"]+)"' % re.escape(crate), open(lockfile).read())
        return m.group(1) if m else None
    repo = os.environ.get("VERIF_REPO", "/repo").rstrip("/")
    lock = os.path.join(repo, "Cargo.lock")
    if not os.path.exists(lock):
        lock = "/repo/Cargo.lock"
    v = ver(lock)
    if v is None:
        die(f"{crate} not found in {lock}")
    hlock = os.path.join(ROOT, "harness", "Cargo.lock")
    if os.path.exists(hlock) and ver(hlock) not in (None, v):
        die(f"{crate}: {lock} locks {v}, harness/Cargo.lock locks {ver(hlock)}")
    return v


def find_crate(crate, version):
    home = os.environ.get("CARGO_HOME", os.path.expanduser("~/.cargo"))
    cands = sorted(glob.glob(os.path.join(home, "registry", "src", "*", f"{crate}-{version}")))
    return cands[0] if cands else None


# ------------------------------------------------------------------ std: parsing
def module_src(src, name):
    m = re.search(r"pub mod %s \{" % re.escape(name), src)
    if not m:
        die(f"module `{name}` not found in unicode_data.rs (format changed?)")
    nxt = re.search(r"\n#\[rustfmt::skip\]\npub mod |\Z", src[m.end():])
    return src[m.end(): m.end() + nxt.start()]


def ints(text):
    return [int(x, 0) for x in re.findall(r"0b[01]+|0x[0-9a-fA-F]+|\d+", text)]


def array_body(msrc, name):
    m = re.search(r"static %s: [^=]*= \[" % re.escape(name), msrc)
    if not m:
        die(f"static {name} not found (format changed?)")
    depth, i = 1, m.end()
    while depth:
        ch = msrc[i]
        depth += ch == "["
        depth -= ch == "]"
        i += 1
    return msrc[m.end(): i - 1]


def parse_skip(src, name):
    ms = module_src(src, name)
    sor = [(int(a), int(b)) for a, b in
           re.findall(r"ShortOffsetRunHeader::new\((\d+), (\d+)\)", array_body(ms, "SHORT_OFFSET_RUNS"))]
    offsets = ints(array_body(ms, "OFFSETS"))
    m = re.search(r"\(c as u32\) >= (0x[0-9a-fA-F]+) && lookup_slow\(c\)", ms)
    if not m or not sor or not offsets:
        die(f"skip-search module `{name}`: unexpected shape")
    return {"sor": sor, "offsets": offsets, "min": int(m.group(1), 16)}


def parse_bitset(src, name):
    ms = module_src(src, name)
    chunks_map = ints(array_body(ms, "BITSET_CHUNKS_MAP"))
    index_chunks = [ints(x) for x in re.findall(r"\[([^\[\]]*)\]", array_body(ms, "BITSET_INDEX_CHUNKS"))]
    canonical = ints(array_body(ms, "BITSET_CANONICAL"))
    mapping = [(int(a), int(b)) for a, b in re.findall(r"\((\d+), (\d+)\)", array_body(ms, "BITSET_MAPPING"))]
    m = re.search(r"\(c as u32\) >= (0x[0-9a-fA-F]+) &&\s*super::bitset_search\(", ms)
    if not m or not chunks_map or not index_chunks or not canonical:
        die(f"bitset module `{name}`: unexpected shape")
    return {"map": chunks_map, "chunks": index_chunks, "canonical": canonical, "mapping": mapping,
            "min": int(m.group(1), 16)}


def parse_lower_lut(src):
    ms = module_src(src, "conversions")
    m = re.search(r"pub fn to_lower\(c: char\) -> \[char; 3\] \{.*?if c < '\\u\{([0-9A-Fa-f]+)\}' \{\s*"
                  r"return \[c\.to_ascii_lowercase\(\), '\\0', '\\0'\];", ms, flags=re.S)
    if not m:
        die("conversions::to_lower: unexpected shape")
    ascii_below = int(m.group(1), 16)
    m = re.search(r"static LOWERCASE_LUT: L1Lut = L1Lut \{(.*?)\n    \};", ms, flags=re.S)
    if not m:
        die("LOWERCASE_LUT not found")
    body = m.group(1)
    planes = []
    for lm in re.finditer(r"L2Lut \{\s*singles: &\[(.*?)\],\s*multis: &\[(.*?)\],\s*\},", body, flags=re.S):
        singles = []
        for sm in re.finditer(r"\(Range::(singleton|step_by_1|step_by_2)\((0x[0-9a-f]+)(?:\.\.=(0x[0-9a-f]+))?\), (-?\d+)\)",
                              lm.group(1)):
            kind, lo, hi, delta = sm.group(1), int(sm.group(2), 16), sm.group(3), int(sm.group(4))
            hi = int(hi, 16) if hi is not None else lo
            if (kind == "singleton") != (sm.group(3) is None):
                die("Range constructor / bounds mismatch")
            singles.append((lo, hi, kind == "step_by_2", delta))
        n_decl = re.search(r"// (\d+) entries", lm.group(1))
        if n_decl and int(n_decl.group(1)) != len(singles):
            die(f"LOWERCASE_LUT singles: parsed {len(singles)} of {n_decl.group(1)} entries")
        multis = []
        for mm in re.finditer(r"\((0x[0-9a-f]+), \[(0x[0-9a-f]+), (0x[0-9a-f]+), (0x[0-9a-f]+)\]\)", lm.group(2)):
            outs = [int(mm.group(k), 16) for k in (2, 3, 4)]
            if outs[0] == 0 or (outs[1] == 0 and outs[2] != 0):
                die("multi-character entry with a 0 that is not trailing padding")
            multis.append((int(mm.group(1), 16), outs))
        planes.append((singles, multis))
    if len(planes) != 2:
        die(f"LOWERCASE_LUT: expected 2 planes, found {len(planes)}")
    return {"ascii_below": ascii_below, "planes": planes}


# ------------------------------------------------------------------ std: decoding
def skip_search_literal(t, needle):
    """transcription of `skip_search`"""
    sor, offsets = t["sor"], t["offsets"]
    # binary_search_by_key(&(needle << 11), |h| h.0 << 11) compares the 21-bit prefix sums
    lo, hi, found = 0, len(sor), None
    while lo < hi:
        mid = (lo + hi) // 2
        if sor[mid][1] == needle:
            found = mid
            break
        if sor[mid][1] < needle:
            lo = mid + 1
        else:
            hi = mid
    last_idx = found + 1 if found is not None else lo
    offset_idx = sor[last_idx][0]
    length = (sor[last_idx + 1][0] if last_idx + 1 < len(sor) else len(offsets)) - offset_idx
    prev = sor[last_idx - 1][1] if last_idx > 0 else 0
    total = needle - prev
    prefix_sum = 0
    for _ in range(length - 1):
        prefix_sum += offsets[offset_idx]
        if prefix_sum > total:
            break
        offset_idx += 1
    return offset_idx % 2 == 1


def decode_skip(t, name):
    """structural decoding: segment i covers [prefix_{i-1}, prefix_i); inside, the offsets are run lengths and
    the parity of the (global) offset index decides membership; the last offset of a segment is not consumed"""
    sor, offsets = t["sor"], t["offsets"]
    if sor[-1][1] <= 0x10FFFF:
        die(f"{name}: last prefix sum does not exceed char::MAX")
    member = []  # (lo, hi) inclusive
    for i, (start, psum) in enumerate(sor):
        prev = sor[i - 1][1] if i > 0 else 0
        end_idx = sor[i + 1][0] if i + 1 < len(sor) else len(offsets)
        pos = prev
        for k in range(start, end_idx):
            if k == end_idx - 1:
                nxt = psum  # the rest of the segment
            else:
                nxt = min(pos + offsets[k], psum)
            if k % 2 == 1 and nxt > pos:
                member.append((pos, nxt - 1))
            pos = nxt
            if pos >= psum:
                break
    # clip to the code space, apply the `>= min` guard of `lookup`, merge adjacent
    out = []
    for lo, hi in member:
        lo, hi = max(lo, t["min"]), min(hi, 0x10FFFF)
        if lo > hi:
            continue
        if out and out[-1][1] + 1 >= lo:
            out[-1] = (out[-1][0], max(out[-1][1], hi))
        else:
            out.append((lo, hi))
    # validate against the literal transcription
    pts = set()
    for lo, hi in out:
        pts.update((lo - 1, lo, hi, hi + 1))
    for s, p in sor:
        pts.update((p - 1, p, p + 1))
    rnd = random.Random(12345)
    pts.update(rnd.randrange(0x110000) for _ in range(20000))
    pts.update(range(0x300))
    for c in pts:
        if 0 <= c <= 0x10FFFF:
            lit = c >= t["min"] and skip_search_literal(t, c)
            dec = in_ranges(out, c)
            if lit != dec:
                die(f"{name}: structural decoding and literal skip_search differ at U+{c:04X}")
    return out


def in_ranges(rs, c):
    lo, hi = 0, len(rs)
    while lo < hi:
        mid = (lo + hi) // 2
        if rs[mid][1] < c:
            lo = mid + 1
        else:
            hi = mid
    return lo < len(rs) and rs[lo][0] <= c


def bitset_word(t, bucket_idx):
    """transcription of `bitset_search` up to the selection of the 64-bit word; None = `return false`"""
    chunk_size = len(t["chunks"][0])
    chunk_map_idx, chunk_piece = divmod(bucket_idx, chunk_size)
    if chunk_map_idx >= len(t["map"]):
        return None
    chunk_idx = t["map"][chunk_map_idx]
    idx = t["chunks"][chunk_idx][chunk_piece]
    canonical = t["canonical"]
    M = (1 << 64) - 1
    if idx < len(canonical):
        return canonical[idx]
    real_idx, mapping = t["mapping"][idx - len(canonical)]
    word = canonical[real_idx]
    if mapping & (1 << 6):
        word = ~word & M
    quantity = mapping & ((1 << 6) - 1)
    if mapping & (1 << 7):
        word >>= quantity
    else:
        word = ((word << quantity) | (word >> (64 - quantity))) & M if quantity else word
    return word


def decode_bitset(t, name):
    out = []
    for bucket in range(0x110000 // 64):
        w = bitset_word(t, bucket)
        if not w:
            continue
        for b in range(64):
            if w >> b & 1:
                c = bucket * 64 + b
                if c < t["min"]:
                    continue
                if out and out[-1][1] + 1 == c:
                    out[-1] = (out[-1][0], c)
                else:
                    out.append((c, c))
    if not out:
        die(f"{name}: empty bitset")
    return out


def header_counts(src):
    """`// Alphabetic : 1723 bytes, 147369 codepoints in 759 ranges (...)` -> {name: (codepoints, ranges)}"""
    d = {}
    for m in re.finditer(r"^// (\w+)\s*:\s*\d+ bytes,\s*(\d+) codepoints in\s*(\d+) ranges", src, flags=re.M):
        d[m.group(1)] = (int(m.group(2)), int(m.group(3)))
    return d


def nsurr(lo, hi):
    """number of scalar values in lo..hi"""
    n = hi - lo + 1
    a, b = max(lo, 0xD800), min(hi, 0xDFFF)
    return n - max(0, b - a + 1)


def parse_std(src):
    d = {}
    m = re.search(r"pub const UNICODE_VERSION: \(u8, u8, u8\) = \((\d+), (\d+), (\d+)\);", src)
    if not m:
        die("UNICODE_VERSION not found in unicode_data.rs")
    d["unicode"] = tuple(int(x) for x in m.groups())
    hc = header_counts(src)
    for name, hname, kind in [("alphabetic", "Alphabetic", "skip"), ("case_ignorable", "Case_Ignorable", "skip"),
                              ("lt", "Lt", "skip"), ("lowercase", "Lowercase", "bitset"),
                              ("uppercase", "Uppercase", "bitset")]:
        if kind == "skip":
            rs = decode_skip(parse_skip(src, name), name)
        else:
            rs = decode_bitset(parse_bitset(src, name), name)
        if hname in hc:
            cps = sum(hi - lo + 1 for lo, hi in rs)
            if (cps, len(rs)) != hc[hname]:
                die(f"{name}: decoded {cps} code points in {len(rs)} ranges, header comment says {hc[hname]}")
        d[name] = rs
    d["lower"] = parse_lower_lut(src)
    if "to_lower" in hc:
        n = 0
        for singles, multis in d["lower"]["planes"]:
            n += sum(len(range(lo, hi + 1, 2 if par else 1)) for lo, hi, par, _ in singles) + len(multis)
        if n != hc["to_lower"][0]:
            die(f"to_lower: {n} mapped code points, header comment says {hc['to_lower'][0]}")
    return d


# ------------------------------------------------------------------ regex-syntax: parsing
CH = r"'(?:\\u\{([0-9a-fA-F]+)\}|\\(.)|([^'\\]))'"


def ch_val(m, k):
    h, esc, plain = m.group(k), m.group(k + 1), m.group(k + 2)
    if h is not None:
        return int(h, 16)
    if esc is not None:
        return {"n": 10, "r": 13, "t": 9, "0": 0, "\\": 92, "'": 39}[esc]
    return ord(plain)


def re_table(src, name):
    m = re.search(r"pub const %s: &'static \[\(char, char\)\] =\s*&\[(.*?)\];" % name, src, flags=re.S)
    if not m:
        die(f"regex-syntax table {name} not found")
    rs = [(ch_val(x, 1), ch_val(x, 4)) for x in
          re.finditer(r"\(\s*" + CH + r"\s*,\s*" + CH + r"\s*\)", m.group(1))]
    if not rs:
        die(f"regex-syntax table {name} is empty")
    for (a, b) in rs:
        if a > b:
            die(f"{name}: reversed range")
    for x, y in zip(rs, rs[1:]):
        if not x[1] < y[0]:
            die(f"{name}: not strictly increasing at U+{y[0]:04X}")
    return rs


def re_version(src):
    m = re.search(r"// Unicode version: (\d+)\.(\d+)\.(\d+)\.", src)
    if not m:
        die("regex-syntax table without a Unicode version line")
    return tuple(int(x) for x in m.groups())


def parse_regex(dsyn, dauto):
    d = {}
    gc = open(os.path.join(dsyn, "src", "unicode_tables", "general_category.rs"), encoding="utf-8").read()
    pb = open(os.path.join(dsyn, "src", "unicode_tables", "property_bool.rs"), encoding="utf-8").read()
    pw = open(os.path.join(dsyn, "src", "unicode_tables", "perl_word.rs"), encoding="utf-8").read()
    vs = {re_version(gc), re_version(pb), re_version(pw)}
    if len(vs) != 1:
        die(f"regex-syntax tables of different Unicode versions: {vs}")
    d["unicode"] = vs.pop()
    d["punctuation"] = re_table(gc, "PUNCTUATION")
    d["mark"] = re_table(gc, "MARK")
    d["decimal_number"] = re_table(gc, "DECIMAL_NUMBER")
    d["connector_punctuation"] = re_table(gc, "CONNECTOR_PUNCTUATION")
    d["alphabetic"] = re_table(pb, "ALPHABETIC")
    d["join_control"] = re_table(pb, "JOIN_CONTROL")
    d["perl_word"] = re_table(pw, "PERL_WORD")
    if dauto is not None:
        pa = open(os.path.join(dauto, "src", "util", "unicode_data", "perl_word.rs"), encoding="utf-8").read()
        if re_table(pa, "PERL_WORD") != d["perl_word"]:
            die("regex-automata's copy of PERL_WORD differs from regex-syntax's")
    return d


# ------------------------------------------------------------------ output
def emit(w, name, ty, rows):
    w(f"Definition {name} : list ({ty}) := [")
    line = "  "
    for k, r in enumerate(rows):
        item = r + ("; " if k + 1 < len(rows) else "")
        if len(line) + len(item) > 100:
            w(line.rstrip())
            line = "  "
        line += item
    w(line.rstrip())
    w("]%N.")
    w("")


def gallina(std, rx, info):
    o = []
    w = o.append
    w("(** GENERATED by tools/gen_ucd.py — do not edit; `tools/gen_ucd.py --check` compares this file with what")
    w("    the sources give.")
    w(f"    std    : {info['std_name']} library/core/src/unicode/unicode_data.rs  (Unicode %d.%d.%d)" % std["unicode"])
    w(f"    sha256 : {info['std_sha']}")
    w(f"    regex  : regex-syntax-{info['rs_version']}/src/unicode_tables/{{general_category,property_bool,perl_word}}.rs"
      "  (Unicode %d.%d.%d)" % rx["unicode"])
    w(f"    sha256 : {info['rs_sha']}")
    w("    std_* : what [char::is_alphabetic], [char::is_case_ignorable], [char::is_cased] (= Lowercase, Uppercase")
    w("    or Lt) and [conversions::to_lower] read; the skip-search and bitset encodings are decoded by the")
    w("    translator (guards `c >= min` of the `lookup` functions applied), the lower-case LUT is kept as it is:")
    w("    (first, last, parity, delta) with ABSOLUTE code points (plane * 65536 + low) — the mapped low 16 bits")
    w("    are (low + delta) mod 65536, a range with parity maps only the code points of the parity of [first] —")
    w("    and the multi-character table (the 0 padding of the arrays removed).")
    w("    re_* : the (char, char) tables of regex-syntax behind \\p{P}, \\p{M}, \\p{Nd}, \\p{Pc}, \\p{Alphabetic},")
    w("    \\p{Join_Control} and \\w / \\b.  Code points are [N] literals. *)")
    w("From Coq Require Import NArith List.")
    w("Import ListNotations.")
    w("")
    w("Definition std_unicode_version : N * N * N := (%d, %d, %d)%%N." % std["unicode"])
    w("Definition re_unicode_version : N * N * N := (%d, %d, %d)%%N." % rx["unicode"])
    w("(** [conversions::to_lower]: code points below this one take [to_ascii_lowercase] *)")
    w(f"Definition std_lower_ascii_below : N := {std['lower']['ascii_below']}%N.")
    w("")
    for name in ["alphabetic", "case_ignorable", "lowercase", "uppercase", "lt"]:
        emit(w, "std_" + name, "N * N", [f"({lo}, {hi})" for lo, hi in std[name]])
    singles, multis = [], []
    for plane, (ss, ms) in enumerate(std["lower"]["planes"]):
        for lo, hi, par, delta in ss:
            singles.append(f"({plane * 65536 + lo}, {plane * 65536 + hi}, {'true' if par else 'false'}, {delta % 65536})")
        for k, outs in ms:
            outs = [plane * 65536 + x for x in outs if x != 0]
            multis.append(f"({plane * 65536 + k}, [{'; '.join(str(x) for x in outs)}])")
    emit(w, "std_lower_singles", "N * N * bool * N", singles)
    emit(w, "std_lower_multis", "N * list N", multis)
    w(f"Definition std_lower_planes : N := {len(std['lower']['planes'])}%N.")
    w("")
    for name in ["alphabetic", "mark", "decimal_number", "connector_punctuation", "join_control", "punctuation",
                 "perl_word"]:
        emit(w, "re_" + name, "N * N", [f"({lo}, {hi})" for lo, hi in rx[name]])
    return "\n".join(o)


def scalar(c):
    return 0 <= c <= 0x10FFFF and not 0xD800 <= c <= 0xDFFF


def lower_points(std):
    pts = {0, 0x40, 0x41, 0x5A, 0x5B, 0x60, 0x61, 0x7A, 0x7B, 0x7F, 0x80, 0xA9, 0xAA, 0xBF, 0xC0, 0x130, 0x131,
           0x3A3, 0x3C2, 0x3C3, 0xD7FF, 0xE000, 0xFFFF, 0x10000, 0x1FFFF, 0x20000, 0x10FFFF, 0x27, 0x2E, 0x3A, 0x5E}
    for name in ["case_ignorable", "lowercase", "uppercase", "lt"]:
        for lo, hi in std[name]:
            pts.update((lo - 1, lo, hi, hi + 1))
    for plane, (ss, ms) in enumerate(std["lower"]["planes"]):
        for lo, hi, par, delta in ss:
            a, b = plane * 65536 + lo, plane * 65536 + hi
            pts.update((a - 1, a, a + 1, b - 1, b, b + 1))
            pts.update((plane * 65536 + (lo + delta) % 65536, plane * 65536 + (hi + delta) % 65536))
        for k, outs in ms:
            pts.update([plane * 65536 + k] + [plane * 65536 + x for x in outs if x])
    return sorted(c for c in pts if scalar(c))


def class_points(std, rx):
    pts = {0, 0x2F, 0x30, 0x39, 0x3A, 0x40, 0x41, 0x5A, 0x5B, 0x5F, 0x60, 0x61, 0x7A, 0x7B, 0x7F, 0x80, 0xA9, 0xAA,
           0x200B, 0x200C, 0x200D, 0x200E, 0xD7FF, 0xE000, 0xFFFF, 0x10000, 0x10FFFF}
    for rs in [std["alphabetic"]] + [rx[k] for k in ["alphabetic", "mark", "decimal_number", "connector_punctuation",
                                                     "join_control", "punctuation", "perl_word"]]:
        for lo, hi in rs:
            pts.update((lo - 1, lo, hi, hi + 1))
    return sorted(c for c in pts if scalar(c))


# the probe words of harness/src/bin/c18.rs (fn lc_probe) — keep the two in step:
#   c, c Σ, A c Σ, A Σ c    (the mapping of c; c before Σ at the start; after a cased letter; after Σ)
def lc_probe(c):
    return [c, 32, c, 0x3A3, 32, 0x41, c, 0x3A3, 32, 0x41, 0x3A3, c]


def c18_corpus(std, info):
    pts = lower_points(std)
    o = ["# GENERATED by tools/gen_ucd.py — do not edit.",
         f"# {len(pts)} code points at or next to an end of a range of the std tables Case_Ignorable, Lowercase,",
         "# Uppercase, Lt, of a range of the lower-case LUT (and the images of the range ends), the multi-character",
         "# entries; 16 per input: text a = the probe words of c18.rs:lc_probe around each, ignore_case on, text b =",
         "# the probes of the first four again (so that the matching compares lower-cased probe words); the",
         "# harness' canon re-derives the oracle words."]
    for k in range(0, len(pts), 16):
        a = []
        for c in pts[k:k + 16]:
            a += lc_probe(c) + [32]
        o.append("((" + " ".join(str(x) for x in a) + ") (" + " ".join(str(x) for x in a[: 4 * 13]) + ") 1 () ())")
    return "\n".join(o) + "\n"


def c20_corpus(std, rx, info):
    pts = class_points(std, rx)
    o = ["# GENERATED by tools/gen_ucd.py — do not edit.",
         f"# {len(pts)} code points at or next to an end of a range of std Alphabetic and of the regex-syntax tables",
         "# Alphabetic, M, Nd, Pc, Join_Control, P, \\w; 64 per input, as class probes (7th input field; the",
         "# harness' canon re-derives the oracle of every probe string): no files, no create, no dictionary."]
    for k in range(0, len(pts), 64):
        probes = " ".join("((%d) ())" % c for c in pts[k:k + 64])
        o.append("((0 1 () () ()) () (() ()) () () () (" + probes + "))")
    return "\n".join(o) + "\n"


def main():
    check = "--check" in sys.argv[1:]
    std_path, std_name = find_std()
    rs_version = locked_version("regex-syntax")
    ra_version = locked_version("regex-automata")
    dsyn = find_crate("regex-syntax", rs_version)
    dauto = find_crate("regex-automata", ra_version)
    missing = []
    if std_path is None:
        missing.append("no installed toolchain ships rust-src (library/core/src/unicode/unicode_data.rs)")
    if dsyn is None:
        missing.append(f"registry source of regex-syntax-{rs_version} not found")
    if missing:
        msg = "gen_ucd: " + "; ".join(missing)
        if check:
            print(msg + " — nothing to compare, committed tables kept")
            sys.exit(0)
        sys.exit(msg)
    raw = open(std_path, "rb").read()
    std = parse_std(raw.decode("utf-8"))
    rx = parse_regex(dsyn, dauto)
    h = hashlib.sha256()
    for f in ["general_category.rs", "property_bool.rs", "perl_word.rs"]:
        h.update(open(os.path.join(dsyn, "src", "unicode_tables", f), "rb").read())
    info = {"std_name": std_name, "std_sha": hashlib.sha256(raw).hexdigest(), "rs_version": rs_version,
            "rs_sha": h.hexdigest()}
    outs = [(OUT_V, gallina(std, rx, info) + "\n"), (OUT_C18, c18_corpus(std, info)), (OUT_C20, c20_corpus(std, rx, info))]
    if check:
        bad = [os.path.relpath(p, ROOT) for p, text in outs if not os.path.exists(p) or open(p).read() != text]
        if bad:
            print(f"gen_ucd: {', '.join(bad)} differ(s) from the translation of {std_path} / {dsyn}; "
                  "run tools/gen_ucd.py and rebuild")
            sys.exit(1)
        print("gen_ucd: committed tables match %s (Unicode %d.%d.%d) and regex-syntax-%s (Unicode %d.%d.%d)"
              % ((std_name,) + std["unicode"] + (rs_version,) + rx["unicode"]))
        sys.exit(0)
    for p, text in outs:
        os.makedirs(os.path.dirname(p), exist_ok=True)
        if not os.path.exists(p) or open(p).read() != text:
            open(p, "w").write(text)
            print("wrote", os.path.relpath(p, ROOT))
        else:
            print("unchanged", os.path.relpath(p, ROOT))


if __name__ == "__main__":
    main()

#!/usr/bin/env python3
"""Development aid: union line coverage of /repo/src by the corpus + quick-tier generators of ALL properties.
usage: tools/coverage_all.py [n_divisor]   (after `tools/coverage.py build`); prints, per source file, the unexecuted line ranges."""
import glob, json, os, re, subprocess, sys
ROOT = os.path.dirname(os.path.dirname(os.path.abspath(__file__)))
COV = "/root/cov"
T = "/root/.rustup/toolchains/nightly-x86_64-unknown-linux-gnu/lib/rustlib/x86_64-unknown-linux-gnu/bin"
div = int(sys.argv[1]) if len(sys.argv) > 1 else 4
exes = []
for i in range(1, 21):
    pid = f"C{i:02d}"
    cfg = json.load(open(f"{ROOT}/props/{pid}.json"))
    exe = f"{COV}/target/debug/{pid.lower()}"
    exes.append(exe)
    pdir = f"{COV}/prof-{pid}"
    subprocess.call(["rm", "-rf", pdir]); os.makedirs(pdir)
    e2 = dict(os.environ, LLVM_PROFILE_FILE=f"{pdir}/%p-%m.profraw")
    inputs = []
    for f in sorted(glob.glob(f"{ROOT}/corpus/{pid}/*.case")):
        inputs += [l.strip().split("\t")[0] for l in open(f, errors="replace") if l.strip() and not l.startswith("#")]
    subprocess.run([exe, "selfcheck"], env=e2, stdout=subprocess.DEVNULL, stderr=subprocess.DEVNULL)
    if inputs:
        try:
            subprocess.run([exe, "run"], input="\n".join(inputs[:3000]) + "\n", text=True, env=e2, stdout=subprocess.DEVNULL, stderr=subprocess.DEVNULL, timeout=1200)
        except subprocess.TimeoutExpired:
            pass
    n = max(50, cfg["n_quick"] // div)
    procs = [subprocess.Popen([exe, "gen", "--seed", str(1000003 + k * 7919 + 1), "--n", str(n // 8 + 1), "--tier", "quick"], env=e2, stdout=subprocess.DEVNULL, stderr=subprocess.DEVNULL) for k in range(8)]
    for p in procs:
        try:
            p.wait(timeout=1500)
        except subprocess.TimeoutExpired:
            p.kill()
    print(pid, "done", len(glob.glob(pdir + "/*.profraw")), "profiles", flush=True)
raws = glob.glob(COV + "/prof-C*/*.profraw")
subprocess.check_call([T + "/llvm-profdata", "merge", "-sparse"] + raws + ["-o", COV + "/all.profdata"])
objs = []
for e in exes[1:]:
    objs += ["-object", e]
for f in sorted(glob.glob("/repo/src/**/*.rs", recursive=True)):
    out = subprocess.run([T + "/llvm-cov", "show", exes[0]] + objs + ["-instr-profile=" + COV + "/all.profdata", f], stdout=subprocess.PIPE, stderr=subprocess.DEVNULL, text=True).stdout
    zero = []
    for line in out.splitlines():
        m = re.match(r"\s*(\d+)\|\s*([0-9.kMGE]*)\|(.*)", line)
        if m and m.group(2) == "0":
            zero.append(int(m.group(1)))
    rng, s = [], None
    for z in zero:
        if s is None: s = p = z
        elif z == p + 1: p = z
        else: rng.append((s, p)); s = p = z
    if s is not None: rng.append((s, p))
    print(f"==== {f[len('/repo/'):]}: {len(zero)} unexecuted lines:", " ".join(f"{a}-{b}" if a != b else str(a) for a, b in rng))

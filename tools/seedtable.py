#!/usr/bin/env python3
"""(re)write the table of section 11 of DESIGN.md (between the SEEDTABLE markers) from seeded/*/meta.json"""
import glob, json, os, re
rows = []
n = caught = 0
for d in sorted(glob.glob("/verif/seeded/*/")):
    m = json.load(open(d + "meta.json"))
    sid = os.path.basename(d.rstrip("/"))
    sub, conf = m["from_subagent"], m["confirmation"]
    checks = []
    for cid, c in conf.get("checks", {}).items():
        v = [l for l in c["lines"] if l.startswith("VIOLATION")]
        stat = [l for l in c["lines"] if l.startswith("[")]
        if v:
            kind = "no failing input (correspondence)" if "no-failing-input-found" in v[0] else "failing input"
            mm = re.search(r"cases=(\d+).*failing=(\d+).*disagree=(\d+)", stat[0]) if stat else None
            checks.append(f"{cid}: VIOLATION, {kind}" + (f" ({mm.group(2)} failing / {mm.group(3)} disagreeing of {mm.group(1)} cases)" if mm else ""))
        else:
            checks.append(f"{cid}: not reported")
    n += 1
    rc = [r for r in m.get("rechecks", []) if r.get("patch_applies")]
    stale = [r for r in m.get("rechecks", []) if not r.get("patch_applies")]
    first_caught = bool(conf.get("caught_by_quick_check"))
    now_caught = rc[-1].get("caught") if rc else first_caught
    caught += 1 if now_caught else 0
    n_stale = globals().get("n_stale", 0) + (1 if (stale and not rc) else 0)
    globals()["n_stale"] = n_stale
    if rc:
        last = rc[-1]
        mm = re.search(r"cases=(\d+).*failing=(\d+).*disagree=(\d+)", " ".join(last.get("lines", [])))
        kind = last.get("replay_kind") or ""
        checks.append(("latest run (verif %s, repo %s): " % (last.get("verif_head"), (last.get("applied_on_base") + " [the change's own base: it no longer applies to HEAD]") if last.get("applied_on_base") else last.get("repo_head")))
                      + (("VIOLATION, " + ("no failing input (correspondence)" if kind == "correspondence" else "failing input")
                          + (f" ({mm.group(2)} failing / {mm.group(3)} disagreeing of {mm.group(1)} cases)" if mm else "")) if last.get("caught") else "not reported")
                      + ("" if first_caught or not last.get("caught") else " — missed when first run, reported after the strengthening described in section 14.4"))
    if stale and not rc:
        checks.append("the patch no longer applies to /repo HEAD (a later fix: commit touched the same lines); confirmed at " + str(conf.get("checked_at_repo_head")))
    summ = (sub.get("summary") or "").replace("|", "/").replace("\n", " ")
    need = (sub.get("needs_to_manifest") or "").replace("|", "/").replace("\n", " ")
    note = m.get("note", "")
    rows.append(f"| {sid} | {summ[:300]} | {need[:240]} | {'yes' if conf.get('confirmed') else 'NO'} | {'; '.join(checks)}{(' — ' + note) if note else ''} |")
table = (f"{n} changes kept, every one confirmed here (demo passes before, patch applies, 41 unit tests pass, demo fails after); "
         f"{caught} of {n} reported (VIOLATION with exit 1) in the latest run of the quick checks against the changed tree; {globals().get('n_stale', 0)} of them could not be re-run at the end because a later fix: commit rewrote the lines they change (their first run counts); a few are reported by the check of a neighbouring property, as the row says (a train_bpe change seeded for C02 is a C19 violation, a panic-handling change seeded for C05 a C09 violation).\n\n"
         "| seed | change (as described by its author) | needs, to manifest | confirmed | quick check of the property against the changed tree |\n"
         "|------|--------|--------------------|-----------|--------------------|\n" + "\n".join(rows))
p = "/verif/DESIGN.md"
s = open(p).read()
if "<!-- SEEDTABLE:BEGIN -->" in s:
    s = re.sub(r"<!-- SEEDTABLE:BEGIN -->.*<!-- SEEDTABLE:END -->", lambda _: "<!-- SEEDTABLE:BEGIN -->\n" + table + "\n<!-- SEEDTABLE:END -->", s, flags=re.S)
else:
    s = s.replace("\nSEEDTABLE\n", "\n<!-- SEEDTABLE:BEGIN -->\n" + table + "\n<!-- SEEDTABLE:END -->\n")
open(p, "w").write(s)
print(f"{n} rows, {caught} caught")

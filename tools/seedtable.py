#!/usr/bin/env python3
"""print the markdown table of section 11 of DESIGN.md from seeded/*/meta.json"""
import glob, json, os, re
rows = []
for d in sorted(glob.glob("/verif/seeded/*/")):
    m = json.load(open(d + "meta.json"))
    sid = os.path.basename(d.rstrip("/"))
    sub, conf = m["from_subagent"], m["confirmation"]
    checks = []
    for cid, c in conf.get("checks", {}).items():
        v = [l for l in c["lines"] if l.startswith("VIOLATION")]
        stat = [l for l in c["lines"] if l.startswith("[")]
        if v:
            kind = "no failing input (correspondence)" if "no-failing-input-found" in v[0] else "failing input"
            mm = re.search(r"failing=(\d+).*disagree=(\d+)", stat[0]) if stat else None
            checks.append(f"{cid}: VIOLATION, {kind}" + (f" ({mm.group(1)} failing / {mm.group(2)} disagreeing cases)" if mm else ""))
        else:
            checks.append(f"{cid}: not reported")
    summ = (sub.get("summary") or "").replace("|", "/").replace("\n", " ")
    need = (sub.get("needs_to_manifest") or "").replace("|", "/").replace("\n", " ")
    rows.append(f"| {sid} | {summ[:260]} | {need[:220]} | {'yes' if conf.get('confirmed') else 'NO'} | {'; '.join(checks)} |")
print("| seed | change | needs, to manifest | confirmed | quick check result |")
print("|------|--------|--------------------|-----------|--------------------|")
print("\n".join(rows))

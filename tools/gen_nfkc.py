#!/usr/bin/env python3
"""Translate the normalisation tables of the locked `unicode-normalization` crate into Gallina (and Rust).

    tools/gen_nfkc.py            regenerate coq/theories/NFKC_Table.v, harness/src/nfkc_draw.rs,
                                 corpus/C19/nfkc_keys.case and corpus/C19/nfkc_pairs.case
    tools/gen_nfkc.py --check    exit 1 if a committed file differs from what the registry source gives,
                                 exit 0 (with a note) if the registry source of the locked version is absent

Reads the version of `unicode-normalization` from $VERIF_REPO/Cargo.lock (default /repo/Cargo.lock), finds
`src/tables.rs` of exactly that version under ~/.cargo/registry/src/*/, and extracts what `src/lookups.rs`,
`src/normalize.rs`, `src/decompose.rs` and `src/recompose.rs` read from it for NFD / NFC / NFKD / NFKC:

  * `CANONICAL_COMBINING_CLASS_KV`  (u32: code point << 8 | class);
  * `CANONICAL_DECOMPOSED_KV` + `CANONICAL_DECOMPOSED_CHARS`   (code point -> (start, len) into the char array):
    the FULL canonical decomposition (the crate never recurses: its tables are already closed);
  * `COMPATIBILITY_DECOMPOSED_KV` + `COMPATIBILITY_DECOMPOSED_CHARS`  (same, full compatibility decomposition;
    only code points whose compatibility decomposition differs from the canonical one are keys);
  * `COMPOSITION_TABLE_KV` (u32: first << 16 | second, composite) for pairs inside the BMP and the match arms of
    `composition_table_astral` for the others.  Composition exclusions need no code in the crate: the script
    that wrote tables.rs left excluded composites (and singletons, and non-starter decompositions) out of these
    two tables, so "excluded" = "absent".
  * `UNICODE_VERSION`.

The crate stores the first four as minimal-perfect-hash tables (a salt array and a key/value array of the same
length). Only the key/value arrays are translated; the model looks keys up in a balanced search tree built
from the sorted list. As a sanity check of the translation (not as part of the model) this script also
evaluates the crate's two-level hash for every key and insists that `mph_lookup` finds it.

The Hangul arithmetic is code (normalize.rs), not data: it is written out in NFKC_Model.v.

The output is deterministic (no timestamps); it records the crate version and the sha256 of tables.rs.
Stdlib only.
"""
import glob
import hashlib
import os
import re
import sys

ROOT = os.path.dirname(os.path.dirname(os.path.abspath(__file__)))
OUT_V = os.path.join(ROOT, "coq", "theories", "NFKC_Table.v")
OUT_RS = os.path.join(ROOT, "harness", "src", "nfkc_draw.rs")
OUT_KEYS = os.path.join(ROOT, "corpus", "C19", "nfkc_keys.case")
OUT_PAIRS = os.path.join(ROOT, "corpus", "C19", "nfkc_pairs.case")
CRATE = "unicode-normalization"

# Hangul constants of normalize.rs (used only to choose probe points)
S_BASE, L_BASE, V_BASE, T_BASE = 0xAC00, 0x1100, 0x1161, 0x11A7
L_COUNT, V_COUNT, T_COUNT = 19, 21, 28
N_COUNT = V_COUNT * T_COUNT
S_COUNT = L_COUNT * N_COUNT


def die(msg):
    sys.exit("gen_nfkc: " + msg)


def locked_version():
    repo = os.environ.get("VERIF_REPO", "/repo").rstrip("/")
    lockp = os.path.join(repo, "Cargo.lock")
    if not os.path.exists(lockp):  # a scratch worktree has no lock file of its own (Cargo.lock is git-ignored in /repo)
        lockp = "/repo/Cargo.lock"
    lock = open(lockp).read()
    m = re.search(r'\[\[package\]\]\s*name = "%s"\s*version = "([^"]+)"' % re.escape(CRATE), lock)
    if not m:
        die(f"{CRATE} not found in {repo}/Cargo.lock")
    return m.group(1)


def find_tables(version):
    home = os.environ.get("CARGO_HOME", os.path.expanduser("~/.cargo"))
    cands = sorted(glob.glob(os.path.join(home, "registry", "src", "*", f"{CRATE}-{version}", "src", "tables.rs")))
    return cands[0] if cands else None


def array_body(src, name, ty):
    """text between `const NAME: &[ty] = &[` and the closing `];`"""
    m = re.search(r"const %s: &\[%s\] = &\[(.*?)\n\];" % (re.escape(name), ty), src, flags=re.S)
    if not m:
        die(f"array {name} not found in tables.rs")
    return m.group(1)


HEX = r"0x([0-9A-Fa-f]+)"
CHR = r"'\\u\{([0-9A-Fa-f]+)\}'"


def parse(src):
    d = {}
    m = re.search(r"pub const UNICODE_VERSION: \(u8, u8, u8\) = \((\d+), (\d+), (\d+)\);", src)
    if not m:
        die("UNICODE_VERSION not found")
    d["unicode"] = tuple(int(x) for x in m.groups())

    def salt(name):
        return [int(x, 16) for x in re.findall(HEX, array_body(src, name + "_SALT", "u16"))]

    def chars(name):
        body = array_body(src, name + "_CHARS", "char")
        items = [x.strip() for x in body.split(",") if x.strip()]
        out = []
        for it in items:
            mm = re.fullmatch(CHR, it)
            if not mm:
                die(f"{name}_CHARS: unexpected element {it!r}")
            out.append(int(mm.group(1), 16))
        return out

    # canonical combining class: u32 = key << 8 | value
    kv = [int(x, 16) for x in re.findall(HEX, array_body(src, "CANONICAL_COMBINING_CLASS_KV", "u32"))]
    d["ccc_raw"] = kv
    d["ccc_salt"] = salt("CANONICAL_COMBINING_CLASS")
    d["ccc"] = sorted((x >> 8, x & 0xFF) for x in kv)

    # composition: (u32 = first << 16 | second, char)
    body = array_body(src, "COMPOSITION_TABLE_KV", r"\(u32, char\)")
    pairs = re.findall(r"\(\s*" + HEX + r"\s*,\s*" + CHR + r"\s*\)", body)
    if len(pairs) != len([l for l in body.splitlines() if l.strip()]):
        die("COMPOSITION_TABLE_KV: an element was not understood")
    d["comp_raw"] = [int(k, 16) for k, _ in pairs]
    d["comp_salt"] = salt("COMPOSITION_TABLE")
    d["comp_bmp"] = sorted((int(k, 16) >> 16, int(k, 16) & 0xFFFF, int(r, 16)) for k, r in pairs)
    m = re.search(r"fn composition_table_astral\(c1: char, c2: char\) -> Option<char> \{\s*match \(c1, c2\) \{(.*?)\n\s*_ => None,\s*\}\s*\}",
                  src, flags=re.S)
    if not m:
        die("composition_table_astral not found")
    arms = [l.strip() for l in m.group(1).splitlines() if l.strip()]
    astral = []
    for arm in arms:
        mm = re.fullmatch(r"\(" + CHR + r", " + CHR + r"\) => Some\(" + CHR + r"\),", arm)
        if not mm:
            die(f"composition_table_astral: unexpected arm {arm!r}")
        astral.append(tuple(int(x, 16) for x in mm.groups()))
    d["comp_astral"] = sorted(astral)

    def decomp(name):
        cs = chars(name)
        body = array_body(src, name + "_KV", r"\(u32, \(u16, u16\)\)")
        ents = re.findall(r"\(\s*" + HEX + r"\s*,\s*\(\s*" + HEX + r"\s*,\s*" + HEX + r"\s*\)\s*\)", body)
        if len(ents) != len([l for l in body.splitlines() if l.strip()]):
            die(f"{name}_KV: an element was not understood")
        out = []
        for k, st, ln in ents:
            k, st, ln = int(k, 16), int(st, 16), int(ln, 16)
            if st + ln > len(cs) or ln == 0:
                die(f"{name}_KV: slice of U+{k:04X} outside the char array")
            out.append((k, cs[st:st + ln]))
        return sorted(out), [int(k, 16) for k, _, _ in ents], salt(name)

    d["canon"], d["canon_raw"], d["canon_salt"] = decomp("CANONICAL_DECOMPOSED")
    d["compat"], d["compat_raw"], d["compat_salt"] = decomp("COMPATIBILITY_DECOMPOSED")
    return d


def my_hash(key, salt, n):
    y = ((key + salt) & 0xFFFFFFFF) * 2654435769 & 0xFFFFFFFF
    y ^= key * 0x31415926 & 0xFFFFFFFF
    return (y * n) >> 32


def scalar(c):
    return 0 <= c <= 0x10FFFF and not 0xD800 <= c <= 0xDFFF


def validate(d):
    """sanity of the translation itself (not of Unicode)"""
    errs = []

    def mph(name, raw_keys, salt):
        if len(raw_keys) != len(salt):
            errs.append(f"{name}: salt and kv arrays differ in length")
            return
        n = len(salt)
        for k in raw_keys:
            s = salt[my_hash(k, 0, n)]
            if raw_keys[my_hash(k, s, n)] != k:
                errs.append(f"{name}: key {k:#x} is not found by the crate's perfect hash")
                return
        if len(set(raw_keys)) != len(raw_keys):
            errs.append(f"{name}: duplicate key")

    mph("CANONICAL_COMBINING_CLASS", [x >> 8 for x in d["ccc_raw"]], d["ccc_salt"])
    mph("COMPOSITION_TABLE", d["comp_raw"], d["comp_salt"])
    mph("CANONICAL_DECOMPOSED", d["canon_raw"], d["canon_salt"])
    mph("COMPATIBILITY_DECOMPOSED", d["compat_raw"], d["compat_salt"])
    for name in ("ccc", "canon", "compat"):
        t = d[name]
        if not t:
            errs.append(f"{name}: empty")
        for a, b in zip(t, t[1:]):
            if not a[0] < b[0]:
                errs.append(f"{name}: keys not strictly increasing at {b[0]:X}")
        for e in t:
            if not scalar(e[0]):
                errs.append(f"{name}: key {e[0]:X} is not a scalar value")
    for k, v in d["ccc"]:
        if v == 0:
            errs.append(f"ccc: explicit class 0 for {k:X}")
    for name in ("canon", "compat"):
        for k, v in d[name]:
            if any(not scalar(c) for c in v):
                errs.append(f"{name}: value of {k:X} contains a non-scalar")
            if k <= 0x7F or S_BASE <= k < S_BASE + S_COUNT:
                errs.append(f"{name}: key {k:X} is ASCII or a Hangul syllable (never looked up by the crate)")
    for name in ("comp_bmp", "comp_astral"):
        t = d[name]
        for a, b in zip(t, t[1:]):
            if not (a[0], a[1]) < (b[0], b[1]):
                errs.append(f"{name}: pairs not strictly increasing at {b[0]:X} {b[1]:X}")
        for a, b, r in t:
            if not (scalar(a) and scalar(b) and scalar(r)):
                errs.append(f"{name}: non-scalar in ({a:X}, {b:X}, {r:X})")
    for a, b, r in d["comp_bmp"]:
        if a >= 0x10000 or b >= 0x10000:
            errs.append("comp_bmp: pair outside the BMP")
    for a, b, r in d["comp_astral"]:
        if a < 0x10000 and b < 0x10000:
            errs.append(f"composition_table_astral: arm ({a:X}, {b:X}) can never be reached")
    if errs:
        die("; ".join(errs[:10]))


# ---------------------------------------------------------------- Gallina
def wrap(w, rows, indent="  ", width=110):
    line = indent
    for k, r in enumerate(rows):
        item = r + ("; " if k + 1 < len(rows) else "")
        if len(line) + len(item) > width and line.strip():
            w(line.rstrip())
            line = indent
        line += item
    if line.strip():
        w(line.rstrip())


CHUNK = 400


def emit_chunked(w, name, ty, rows):
    """a long list as the concatenation of chunks (keeps every single term small for coqc)"""
    parts = [rows[i:i + CHUNK] for i in range(0, len(rows), CHUNK)] or [[]]
    for k, part in enumerate(parts):
        w(f"Definition {name}_{k} : list ({ty}) := [")
        wrap(w, part)
        w("].")
    w(f"Definition {name} : list ({ty}) :=")
    w("  " + " ++ ".join(f"{name}_{k}" for k in range(len(parts))) + ".")
    w("")


def gallina(d, version, digest):
    o = []
    w = o.append
    w("(** GENERATED by tools/gen_nfkc.py — do not edit; `tools/gen_nfkc.py --check` compares this file")
    w("    with what the registry source gives.")
    w(f"    source : {CRATE}-{version}/src/tables.rs")
    w(f"    sha256 : {digest}")
    w("    Unicode %d.%d.%d.  What lookups.rs / normalize.rs read from tables.rs for NFD, NFC, NFKD, NFKC:" % d["unicode"])
    w(f"    [ccc_table] ({len(d['ccc'])} code points with a non-zero canonical combining class;")
    w("    CANONICAL_COMBINING_CLASS_KV), [canon_decomp_table] (%d code points -> FULL canonical" % len(d["canon"]))
    w("    decomposition; CANONICAL_DECOMPOSED_KV/_CHARS), [compat_decomp_table] (%d code points -> FULL" % len(d["compat"]))
    w("    compatibility decomposition, only where it differs from the canonical one;")
    w("    COMPATIBILITY_DECOMPOSED_KV/_CHARS), [comp_bmp_table] (%d pairs (first, second, composite) of" % len(d["comp_bmp"]))
    w("    COMPOSITION_TABLE_KV), [comp_astral_table] (%d arms of composition_table_astral)." % len(d["comp_astral"]))
    w("    Composition exclusions, singletons and non-starter decompositions are simply absent from")
    w("    the two composition tables (the crate has no other notion of exclusion).")
    w("    All lists are sorted by key; code points are [N] literals. *)")
    w("From Coq Require Import NArith List.")
    w("Import ListNotations.")
    w("Open Scope N_scope.")
    w("")
    w("Definition nfkc_unicode_version : N * N * N := (%d, %d, %d)." % d["unicode"])
    w(f"Definition nfkc_crate_version : list N := [{'; '.join(version.replace('.', ' ').split())}].")
    w("")
    emit_chunked(w, "ccc_table", "N * N", [f"({k}, {v})" for k, v in d["ccc"]])

    def dl(v):
        return "[" + "; ".join(str(c) for c in v) + "]"

    emit_chunked(w, "canon_decomp_table", "N * list N", [f"({k}, {dl(v)})" for k, v in d["canon"]])
    emit_chunked(w, "compat_decomp_table", "N * list N", [f"({k}, {dl(v)})" for k, v in d["compat"]])
    emit_chunked(w, "comp_bmp_table", "N * N * N", [f"({a}, {b}, {r})" for a, b, r in d["comp_bmp"]])
    emit_chunked(w, "comp_astral_table", "N * N * N", [f"({a}, {b}, {r})" for a, b, r in d["comp_astral"]])
    return "\n".join(o) + "\n"


# ---------------------------------------------------------------- Rust (drawing inputs only)
def rust(d, version, digest):
    o = []
    w = o.append
    w("// GENERATED by tools/gen_nfkc.py — do not edit (`tools/gen_nfkc.py --check`).")
    w(f"// source: {CRATE}-{version}/src/tables.rs sha256 {digest}")
    w("// Used by the harness only to DRAW inputs (keys of every table, marks of every class, composing")
    w("// pairs); the normalisation under test always comes from the real crate.")
    w("#![allow(dead_code)]")
    w("pub const UNICODE_VERSION: (u32, u32, u32) = (%d, %d, %d);" % d["unicode"])

    def emit(name, ty, rows):
        w(f"pub const {name}: &[{ty}] = &[")
        line = "    "
        for r in rows:
            item = r + ", "
            if len(line) + len(item) > 110:
                w(line.rstrip())
                line = "    "
            line += item
        if line.strip():
            w(line.rstrip())
        w("];")

    emit("CCC", "(u32, u8)", [f"({k:#x}, {v})" for k, v in d["ccc"]])
    emit("CANON", "(u32, &[u32])", [f"({k:#x}, &[{', '.join(f'{c:#x}' for c in v)}])" for k, v in d["canon"]])
    emit("COMPAT", "(u32, &[u32])", [f"({k:#x}, &[{', '.join(f'{c:#x}' for c in v)}])" for k, v in d["compat"]])
    emit("COMP", "(u32, u32, u32)", [f"({a:#x}, {b:#x}, {r:#x})" for a, b, r in d["comp_bmp"] + d["comp_astral"]])
    return "\n".join(o) + "\n"


# ---------------------------------------------------------------- corpus
# the probe strings of harness/src/bin/c19.rs (fn probe_text) — keep the two in step
def probe_text(c):
    ps = [[c], [0x61, c], [c, 0x301], [0x43, c, 0x327, 0x301], [0x1100, c, 0x11A8], [0xAC00, c],
          [c, 0x1161, 0x11A8], [0x61, 0x316, c, 0x301]]
    out = []
    for k, p in enumerate(ps):
        if k:
            out.append(10)
        out += p
    return out


PER_CASE = 64


def pack(strings):
    """C19 inputs without corpus files whose side channel (field 9) holds the strings, 64 per case;
    the harness puts normalize(s, form, graphemes) of the real crate for all 4 x 2 combinations into
    field 6 of the implementation output"""
    lines = []
    for i in range(0, len(strings), PER_CASE):
        ents = " ".join("(" + " ".join(str(x) for x in s) + ")" for s in strings[i:i + PER_CASE])
        lines.append(f"(256 0 0 0 () () () 1 () ({ents}))")
    return lines


def key_points(d):
    pts = {0, 0x7F, 0x80, 0xA0, 0x2FF, 0x300, 0xD7FF, 0xE000, 0xFFFF, 0x10000, 0x10FFFF}
    for t in (d["ccc"], d["canon"], d["compat"]):
        for e in t:
            pts.update((e[0] - 1, e[0], e[0] + 1))
    for a, b, r in d["comp_bmp"] + d["comp_astral"]:
        pts.update((a, b, r))
    for base, cnt in ((L_BASE, L_COUNT), (V_BASE, V_COUNT), (T_BASE, T_COUNT), (S_BASE, S_COUNT)):
        pts.update((base - 1, base, base + 1, base + cnt - 2, base + cnt - 1, base + cnt))
    for s in (S_BASE + T_COUNT - 1, S_BASE + T_COUNT, S_BASE + T_COUNT + 1, S_BASE + N_COUNT - 1, S_BASE + N_COUNT,
              S_BASE + N_COUNT + 1):
        pts.add(s)
    return sorted(c for c in pts if scalar(c))


def corpus_keys(d, version):
    pts = key_points(d)
    o = [f"# GENERATED by tools/gen_nfkc.py from {CRATE}-{version}/src/tables.rs — do not edit.",
         f"# {len(pts)} code points: every key of the ccc / canonical / compatibility decomposition tables and its",
         "# two neighbours, every member of a composing pair, the ends of the Hangul L/V/T/syllable ranges.",
         "# One side-channel string per code point (c19.rs:probe_text), 64 per case; no corpus files, no merges.",
         "# The harness reports normalize(s, form, graphemes) of the real crate for all 4 x 2 combinations."]
    return "\n".join(o + pack([probe_text(c) for c in pts])) + "\n"


def corpus_pairs(d, version):
    ccc = dict(d["ccc"])
    comp = {(a, b): r for a, b, r in d["comp_bmp"] + d["comp_astral"]}
    firsts_of = {}
    for (a, b) in comp:
        firsts_of.setdefault(b, set()).add(a)
    marks = sorted(ccc)

    def mark_with(pred, a):
        for m in marks:
            if pred(ccc[m]) and (a, m) not in comp:
                return m
        return None

    strings = []
    for (a, b), r in sorted(comp.items()):
        cb = ccc.get(b, 0)
        ps = [[a, b], [a, b, b], [a + 1, b], [a, b + 1], [a, 0x61, b]]
        if cb == 0:
            m = mark_with(lambda k: True, a)
            if m is not None:
                ps.append([a, m, b])          # a starter behind a mark is blocked
        else:
            m1 = mark_with(lambda k: k < cb, a)
            if m1 is not None and m1 != b:
                ps.append([a, m1, b])         # lower class in between: not blocked
            m2 = mark_with(lambda k: k == cb, a)
            if m2 is not None and m2 != b:
                ps.append([a, m2, b])         # equal class in between: blocked
                ps.append([a, b, m2])
            m3 = mark_with(lambda k: k > cb, a)
            if m3 is not None:
                ps.append([a, m3, b])         # reordered first, then composed
        s = []
        for k, p in enumerate(ps):
            if k:
                s.append(10)
            s += [c for c in p if scalar(c)]
        strings.append(s)
    o = [f"# GENERATED by tools/gen_nfkc.py from {CRATE}-{version}/src/tables.rs — do not edit.",
         f"# {len(strings)} composing pairs (first, second) of COMPOSITION_TABLE_KV and composition_table_astral:",
         "# `a b`, `a b b`, `a+1 b`, `a b+1`, `a x b`, and with a mark of lower / equal / higher class (or, for a",
         "# second that is a starter, any mark) in between — not blocked / blocked / reordered. 64 strings per case."]
    return "\n".join(o + pack(strings)) + "\n"


def main():
    check = "--check" in sys.argv[1:]
    version = locked_version()
    path = find_tables(version)
    if path is None:
        msg = f"gen_nfkc: registry source of {CRATE}-{version} not found under ~/.cargo/registry/src"
        if check:
            print(msg + " — nothing to compare, committed tables kept")
            sys.exit(0)
        sys.exit(msg)
    raw = open(path, "rb").read()
    digest = hashlib.sha256(raw).hexdigest()
    d = parse(raw.decode("utf-8"))
    validate(d)
    outs = [(OUT_V, gallina(d, version, digest)), (OUT_RS, rust(d, version, digest)),
            (OUT_KEYS, corpus_keys(d, version)), (OUT_PAIRS, corpus_pairs(d, version))]
    if check:
        bad = []
        for p, text in outs:
            if not os.path.exists(p) or open(p).read() != text:
                bad.append(os.path.relpath(p, ROOT))
        if bad:
            print(f"gen_nfkc: {', '.join(bad)} differ(s) from the translation of {path} "
                  f"({CRATE} {version}); run tools/gen_nfkc.py and rebuild")
            sys.exit(1)
        print("gen_nfkc: committed tables match %s-%s (Unicode %d.%d.%d; %d ccc, %d canonical, %d compatibility, %d+%d pairs)"
              % ((CRATE, version) + d["unicode"] + (len(d["ccc"]), len(d["canon"]), len(d["compat"]),
                                                    len(d["comp_bmp"]), len(d["comp_astral"]))))
        sys.exit(0)
    for p, text in outs:
        if not os.path.exists(p) or open(p).read() != text:
            open(p, "w").write(text)
            print("wrote", os.path.relpath(p, ROOT))
        else:
            print("unchanged", os.path.relpath(p, ROOT))


if __name__ == "__main__":
    main()

#!/bin/bash
./check --setup > setup.log 2>&1
for i in 01 02 03 04 05 06 07 08 09 10 11 12 13 14 15 16 17 18 19 20; do
  echo "=== C$i $(date +%H:%M:%S)"
  timeout 5400 ./check C$i --tier thorough 2>&1 | grep -E "^\[C|VIOLATION|KNOWN|PROBLEM|coqchk" | cut -c1-300
done
echo "=== done $(date +%H:%M:%S)"
